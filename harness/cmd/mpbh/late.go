package main

// Family "late": goroutines issue random valid API calls on a container and its
// bars while the main goroutine ends the container (Wait after finishing the
// bars, Shutdown, or context cancellation) at a random moment; then every call
// is repeated after Wait has returned.  Recorded: that every call returned in
// time, what the late calls returned, and nothing else — a panic kills the
// process, a hang is reported by name.

import (
	"context"
	"fmt"
	"io"
	"runtime"
	"strings"
	"sync"
	"sync/atomic"
	"time"

	"github.com/vbauerster/mpb/v8"
	"github.com/vbauerster/mpb/v8/decor"
)

func init() { families["late"] = runLateFamily }

type lateCase struct {
	k                       int
	seed                    uint64
	mode                    int // 0 auto, 1 plain, 2 manual
	q                       int // queue length (-1: default)
	pop, notifier, delay    bool
	nbars, nstorm, ncalls   int
	ending                  int // 0 Wait, 1 Shutdown, 2 cancel then Wait, 3 Wait while the other goroutines go on adding and finishing bars
	endAfter                int // storm calls (total) after which the ending starts
	syncw                   bool
}

func (lc *lateCase) header() string {
	return fmt.Sprintf("case %d %d %d %d %d %d %d %d %d %d %d %d %d", lc.k, lc.seed, lc.mode, lc.q, b2i(lc.pop), b2i(lc.notifier),
		b2i(lc.delay), lc.nbars, lc.nstorm, lc.ncalls, lc.ending, lc.endAfter, b2i(lc.syncw))
}

func genLateCase(r *rng, k int, thorough bool) *lateCase {
	lc := &lateCase{k: k, seed: r.u64(), mode: r.intn(3), q: -1, pop: r.chance(1, 4), notifier: r.chance(1, 3),
		delay: r.chance(1, 8), nbars: 1 + r.intn(5), nstorm: 1 + r.intn(4), ncalls: 3 + r.intn(10), ending: r.intn(4), syncw: r.chance(1, 3)}
	if thorough {
		lc.ncalls += r.intn(20)
	}
	if r.chance(1, 2) {
		lc.q = r.intn(3)
	}
	lc.endAfter = r.intn(lc.nstorm*lc.ncalls + 1)
	return lc
}

func parseLateCases(path string) ([]*lateCase, error) {
	lines, err := readLines(path)
	if err != nil {
		return nil, err
	}
	var out []*lateCase
	for _, ln := range lines {
		f := strings.Fields(ln)
		if len(f) == 14 && f[0] == "case" {
			lc := &lateCase{}
			var p, n, d, s int
			fmt.Sscanf(strings.Join(f[1:], " "), "%d %d %d %d %d %d %d %d %d %d %d %d %d", &lc.k, &lc.seed, &lc.mode, &lc.q, &p, &n, &d,
				&lc.nbars, &lc.nstorm, &lc.ncalls, &lc.ending, &lc.endAfter, &s)
			lc.pop, lc.notifier, lc.delay, lc.syncw = p == 1, n == 1, d == 1, s == 1
			out = append(out, lc)
		}
	}
	return out, nil
}

func runLateFamily(c *runCtx) error {
	cases, doneC := c.create("cases.txt")
	defer doneC()
	var list []*lateCase
	if c.extra != "" {
		var err error
		if list, err = parseLateCases(c.extra); err != nil {
			return err
		}
	} else {
		root := newRng(c.seed)
		for k := 0; k < c.n; k++ {
			list = append(list, genLateCase(root.fork(), k, c.tier == "thorough"))
		}
	}
	// scheduling perturbation at the library's hook points
	var pc uint64
	mpb.VerifSetSink(func(ev mpb.VerifEvent) {
		v := atomic.AddUint64(&pc, 0x9E3779B97F4A7C15)
		v ^= v >> 29
		switch v % 16 {
		case 0, 1, 2, 3:
			runtime.Gosched()
		case 4:
			time.Sleep(time.Duration(20+v%97) * time.Microsecond)
		}
	})
	defer mpb.VerifSetSink(nil)
	for _, lc := range list {
		if err := execLateCase(c, lc, cases); err != nil {
			return err
		}
	}
	return nil
}

func execLateCase(c *runCtx, lc *lateCase, cases lineW) error {
	cases.WriteString(lc.header() + "\n")
	if f, ok := cases.(interface{ Flush() error }); ok {
		_ = f.Flush() // a panic of the library must not lose the case being run
	}
	c.count(fmt.Sprintf("mode_%d", lc.mode))
	c.count(fmt.Sprintf("ending_%d", lc.ending))
	hang := func(what string) error {
		buf := make([]byte, 1<<20)
		n := runtime.Stack(buf, true)
		cases.WriteString(fmt.Sprintf("HANG %s\nend\n", what))
		_ = writeFile(fmt.Sprintf("%s/hang_%d.stacks", c.outDir, lc.k), buf[:n])
		return fmt.Errorf("case %d: hang: %s", lc.k, what)
	}
	withTimeout := func(f func()) bool {
		done := make(chan struct{})
		go func() { f(); close(done) }()
		select {
		case <-done:
			return true
		case <-time.After(hangTimeout):
			return false
		}
	}

	ctx, cancel := context.WithCancel(context.Background())
	defer cancel()
	opts := []mpb.ContainerOption{mpb.WithOutput(io.Discard), mpb.WithWidth(60)}
	var manual chan interface{}
	tick := make(chan time.Time)
	switch lc.mode {
	case 0:
		mpb.VerifSetTick(tick)
		defer mpb.VerifSetTick(nil)
		opts = append(opts, mpb.WithAutoRefresh(), mpb.WithRefreshRate(time.Hour))
	case 2:
		manual = make(chan interface{})
		opts = append(opts, mpb.WithManualRefresh(manual))
	}
	if lc.q >= 0 {
		opts = append(opts, mpb.WithQueueLen(lc.q))
	}
	if lc.pop {
		opts = append(opts, mpb.PopCompletedMode())
	}
	notify := make(chan interface{}, 1)
	if lc.notifier {
		opts = append(opts, mpb.WithShutdownNotifier(notify))
	}
	delayCh := make(chan struct{})
	if lc.delay {
		opts = append(opts, mpb.WithRenderDelay(delayCh))
	}
	p := mpb.NewWithContext(ctx, opts...)

	var barsMu sync.Mutex
	var bars []*mpb.Bar
	addBar := func(r *rng) (*mpb.Bar, error) {
		var bo []mpb.BarOption
		if lc.syncw && r.bool() {
			bo = append(bo, mpb.PrependDecorators(decor.Name("n", decor.WCSyncWidth)), mpb.AppendDecorators(decor.Percentage(decor.WCSyncSpace)))
		}
		if r.chance(1, 4) {
			bo = append(bo, mpb.BarRemoveOnComplete())
		}
		if r.chance(1, 5) {
			bo = append(bo, mpb.BarPriority(r.intn(10)-5))
		}
		b, err := p.Add(int64(1+r.intn(20)), nil, bo...)
		if err == nil {
			barsMu.Lock()
			bars = append(bars, b)
			barsMu.Unlock()
		}
		return b, err
	}
	r0 := newRng(lc.seed)
	for i := 0; i < lc.nbars; i++ {
		if _, err := addBar(r0); err != nil {
			cases.WriteString(fmt.Sprintf("BAD initial-add %v\n", err))
		}
	}

	stop := make(chan struct{})
	var bg sync.WaitGroup
	bg.Add(1)
	go func() { // refresh source
		defer bg.Done()
		for {
			select {
			case <-stop:
				return
			default:
			}
			switch lc.mode {
			case 0:
				select {
				case tick <- time.Now():
				case <-time.After(300 * time.Microsecond):
				}
			case 2:
				select {
				case manual <- time.Now():
				case <-time.After(300 * time.Microsecond):
				}
			default:
				time.Sleep(300 * time.Microsecond)
			}
		}
	}()
	if lc.delay {
		go func() { time.Sleep(200 * time.Microsecond); close(delayCh) }()
	}

	var calls, addOK, addDone, addOther, writeOK, writeDone, writeOther int64
	pickBar := func(r *rng) *mpb.Bar {
		barsMu.Lock()
		defer barsMu.Unlock()
		return bars[r.intn(len(bars))]
	}
	apiCall := func(r *rng) {
		op := r.intn(16)
		if lc.ending == 3 && r.chance(1, 2) {
			op = 0 // mostly Add, each new bar finished at once
		}
		switch op {
		case 0:
			b, err := addBar(r)
			switch {
			case err == nil && b != nil:
				atomic.AddInt64(&addOK, 1)
				if lc.ending == 3 {
					b.Abort(r.bool()) // finished at once: Wait sees the count drop to zero again and again
				}
			case err == mpb.ErrDone && b == nil:
				atomic.AddInt64(&addDone, 1)
			default:
				atomic.AddInt64(&addOther, 1)
			}
		case 1:
			msg := []byte("line\n")
			n, err := p.Write(msg)
			switch {
			case err == nil && n == len(msg):
				atomic.AddInt64(&writeOK, 1)
			case err == mpb.ErrDone && n == 0:
				atomic.AddInt64(&writeDone, 1)
			default:
				atomic.AddInt64(&writeOther, 1)
			}
		case 2:
			p.UpdateBarPriority(pickBar(r), r.intn(10)-5, r.bool())
		case 3:
			pickBar(r).SetPriority(r.intn(10) - 5)
		case 4, 5, 6:
			pickBar(r).IncrBy(1 + r.intn(4))
		case 7:
			pickBar(r).EwmaIncrBy(1, time.Millisecond)
		case 8:
			pickBar(r).SetTotal(int64(r.intn(30)), r.chance(1, 4))
		case 9:
			pickBar(r).SetCurrent(int64(r.intn(30)))
		case 10:
			pickBar(r).SetRefill(int64(r.intn(10)))
		case 11:
			if r.chance(1, 3) {
				pickBar(r).Abort(r.bool())
			} else {
				pickBar(r).EnableTriggerComplete()
			}
		case 12:
			b := pickBar(r)
			_, _, _, _, _ = b.Current(), b.Completed(), b.Aborted(), b.IsRunning(), b.ID()
		case 13:
			pickBar(r).TraverseDecorators(func(decor.Decorator) {})
		case 14:
			pickBar(r).DecoratorAverageAdjust(time.Now())
		default:
			pickBar(r).SetRefill(1)
		}
		atomic.AddInt64(&calls, 1)
	}

	var storm sync.WaitGroup
	for g := 0; g < lc.nstorm; g++ {
		storm.Add(1)
		go func(g int) {
			defer storm.Done()
			r := newRng(lc.seed + uint64(g)*7919 + 1)
			for i := 0; i < lc.ncalls; i++ {
				apiCall(r)
			}
		}(g)
	}
	// the ending starts once endAfter calls have been made
	for atomic.LoadInt64(&calls) < int64(lc.endAfter) {
		runtime.Gosched()
	}
	finishAll := func() { // a bar that is neither completed nor aborted keeps Wait waiting, legitimately
		for round := 0; ; round++ {
			barsMu.Lock()
			bs := append([]*mpb.Bar(nil), bars...)
			barsMu.Unlock()
			for _, b := range bs {
				b.Abort(false)
			}
			barsMu.Lock()
			same := len(bars) == len(bs)
			barsMu.Unlock()
			if same {
				return
			}
		}
	}
	ended := false
	switch lc.ending {
	case 0:
		if !withTimeout(func() { storm.Wait(); finishAll(); p.Wait() }) {
			return hang("wait")
		}
		ended = true
	case 1:
		if !withTimeout(p.Shutdown) {
			return hang("shutdown")
		}
	case 2:
		cancel()
		if !withTimeout(p.Wait) {
			return hang("wait-after-cancel")
		}
	default:
		// Wait returns once no bar is running; the other goroutines keep adding bars (and finishing the ones
		// they added), so it may have to wait for several generations of bars
		stormDone := make(chan struct{})
		go func() { storm.Wait(); close(stormDone) }()
		finishAll() // the bars present now; later ones are finished by whoever adds them
		if !withTimeout(func() {
			w := make(chan struct{})
			go func() { p.Wait(); close(w) }()
			select {
			case <-w:
			case <-stormDone:
				finishAll()
				<-w
			}
		}) {
			return hang("wait-while-adding")
		}
	}
	if !ended {
		if !withTimeout(storm.Wait) {
			return hang("storm-call")
		}
	}
	if !withTimeout(p.Wait) { // Wait again: must return at once
		return hang("second-wait")
	}
	close(stop)
	bg.Wait()
	if lc.notifier {
		select {
		case <-notify:
		case <-time.After(hangTimeout):
			return hang("notifier")
		}
	}
	cases.WriteString(fmt.Sprintf("storm calls=%d add_ok=%d add_done=%d add_other=%d write_ok=%d write_done=%d write_other=%d\n",
		calls, addOK, addDone, addOther, writeOK, writeDone, writeOther))
	c.stats["storm_calls"] += int(calls)
	c.stats["storm_add_ok"] += int(addOK)
	c.stats["storm_add_done"] += int(addDone)
	c.stats["storm_write_ok"] += int(writeOK)
	c.stats["storm_write_done"] += int(writeDone)

	// ---- after Wait: every call returns promptly with the documented value
	var lb *mpb.Bar
	var lerr error
	var ln int
	if !withTimeout(func() { lb, lerr = p.Add(5, nil) }) {
		return hang("late-add")
	}
	cases.WriteString(fmt.Sprintf("late add nilbar=%d errdone=%d\n", b2i(lb == nil), b2i(lerr == mpb.ErrDone)))
	if !withTimeout(func() { ln, lerr = p.Write([]byte("late\n")) }) {
		return hang("late-write")
	}
	cases.WriteString(fmt.Sprintf("late write n=%d errdone=%d\n", ln, b2i(lerr == mpb.ErrDone)))
	if !withTimeout(func() { p.UpdateBarPriority(bars[0], 3, false) }) {
		return hang("late-container-call")
	}
	for i, b := range bars {
		var c0, c1 int64
		var comp0, ab0, comp1, ab1, run bool
		ok := withTimeout(func() {
			c0, comp0, ab0 = b.Current(), b.Completed(), b.Aborted()
			b.IncrBy(3)
			b.IncrInt64(2)
			b.EwmaIncrBy(1, time.Millisecond)
			b.SetCurrent(c0 + 7)
			b.SetTotal(c0+100, true)
			b.SetRefill(1)
			b.EnableTriggerComplete()
			b.Abort(true)
			b.SetPriority(1)
			b.TraverseDecorators(func(decor.Decorator) {})
			c1, comp1, ab1, run = b.Current(), b.Completed(), b.Aborted(), b.IsRunning()
			b.Wait()
		})
		if !ok {
			return hang(fmt.Sprintf("late-bar-call-%d", i))
		}
		cases.WriteString(fmt.Sprintf("late bar %d same=%d one=%d running=%d\n", i,
			b2i(c0 == c1 && comp0 == comp1 && ab0 == ab1), b2i(comp1 != ab1), b2i(run)))
	}
	leaked := -1
	for try := 0; try < 200; try++ {
		leaked, _ = libraryGoroutines()
		if leaked == 0 {
			break
		}
		time.Sleep(5 * time.Millisecond)
	}
	cases.WriteString(fmt.Sprintf("leak %d\nend\n", leaked))
	return nil
}

func writeFile(path string, b []byte) error { return writeFileImpl(path, b) }

func writeFileImpl(path string, b []byte) error { return osWriteFile(path, b) }
