module verif/harness

go 1.17

require github.com/vbauerster/mpb/v8 v8.0.0

require (
	github.com/VividCortex/ewma v1.2.0
	github.com/acarl005/stripansi v0.0.0-20180116102854-5a71ef0e047d
	github.com/mattn/go-runewidth v0.0.16
	github.com/rivo/uniseg v0.4.7 // indirect
	golang.org/x/sys v0.30.0
)

replace github.com/vbauerster/mpb/v8 => /repo
