// translator — reads the library's Go source (the non-test files of /repo's working
// tree that are built without the verif tag) with go/ast and writes Coq tables:
//
//   - every select statement of every method: the kinds of its clauses and, for the
//     clause taken when the container / bar is done, what is returned;
//   - every `go` statement: where it is and what it runs;
//   - a few constants the model depends on.
//
// The Coq side (coq/GenChecks.v, Props/C01.v, C02.v, C16.v) states obligations over
// these tables; they are re-checked on every run.
package main

import (
	"bytes"
	"flag"
	"fmt"
	"go/ast"
	"go/parser"
	"go/printer"
	"go/token"
	"os"
	"path/filepath"
	"sort"
	"strings"
)

type sel struct {
	recv, method string
	line         int
	clauses      []string // kinds
	doneRet      string   // text of the return statement in the first done-like clause ("" if none / no return)
	inClosure    bool
}

type spawn struct {
	file, fn string
	what     string
}

var fset = token.NewFileSet()

func text(n ast.Node) string {
	var b bytes.Buffer
	_ = printer.Fprint(&b, fset, n)
	return strings.Join(strings.Fields(b.String()), " ")
}

func recvName(fd *ast.FuncDecl) string {
	if fd.Recv == nil || len(fd.Recv.List) == 0 {
		return ""
	}
	t := fd.Recv.List[0].Type
	if s, ok := t.(*ast.StarExpr); ok {
		t = s.X
	}
	if id, ok := t.(*ast.Ident); ok {
		return id.Name
	}
	return text(t)
}

// kind of a communication clause
func clauseKind(cc *ast.CommClause) string {
	if cc.Comm == nil {
		return "KDefault"
	}
	switch st := cc.Comm.(type) {
	case *ast.SendStmt:
		ch := text(st.Chan)
		switch {
		case strings.HasSuffix(ch, "operateState"):
			return "KSendOp"
		case strings.HasSuffix(ch, "interceptIO"):
			return "KSendIO"
		case strings.HasSuffix(ch, "renderReq"):
			return "KSendRender"
		default:
			return "KSendOther"
		}
	case *ast.ExprStmt:
		return recvKind(st.X)
	case *ast.AssignStmt:
		if len(st.Rhs) == 1 {
			return recvKind(st.Rhs[0])
		}
	}
	return "KOther"
}

func recvKind(e ast.Expr) string {
	u, ok := e.(*ast.UnaryExpr)
	if !ok || u.Op != token.ARROW {
		return "KOther"
	}
	ch := text(u.X)
	switch {
	case strings.HasSuffix(ch, ".done") || ch == "done":
		return "KDone"
	case strings.HasSuffix(ch, "ctx.Done()") || strings.HasSuffix(ch, "Done()"):
		return "KCtxDone"
	case strings.HasSuffix(ch, "bsOk"):
		return "KBsOk"
	case strings.HasSuffix(ch, "operateState"):
		return "KRecvOp"
	case strings.HasSuffix(ch, "interceptIO"):
		return "KRecvIO"
	case strings.HasSuffix(ch, "renderReq"):
		return "KRecvRender"
	default:
		return "KRecvOther"
	}
}

// hmShape classifies the body of a heap manager request method: "send" when it is straight-line code whose
// only communication is one blocking send on the manager's channel (no select, no go statement, no loop)
func hmShape(fd *ast.FuncDecl) string {
	sends, other := 0, false
	ast.Inspect(fd.Body, func(n ast.Node) bool {
		switch x := n.(type) {
		case *ast.SendStmt:
			if text(x.Chan) == fd.Recv.List[0].Names[0].Name {
				sends++
			} else {
				other = true
			}
		case *ast.SelectStmt, *ast.GoStmt, *ast.ForStmt, *ast.RangeStmt, *ast.FuncLit:
			other = true
		}
		return true
	})
	if sends == 1 && !other {
		return "send"
	}
	return "other"
}

// wgShape records how bar_wait_group.go's methods use the mutex and the condition variable: the condition of the loop
// around cond.Wait, the condition under which Add broadcasts, and whether each method body begins by locking the mutex.
// The receiver's name is normalised to g.
func wgShape(fd *ast.FuncDecl, consts map[string]string, fields map[string]string) {
	rn := "g"
	if len(fd.Recv.List) > 0 && len(fd.Recv.List[0].Names) > 0 {
		rn = fd.Recv.List[0].Names[0].Name
	}
	norm := func(n ast.Node) string {
		t := text(n)
		if rn != "g" {
			t = strings.ReplaceAll(" "+t, " "+rn+".", " g.")
			t = strings.ReplaceAll(t, "("+rn+".", "(g.")
			t = strings.ReplaceAll(t, "!"+rn+".", "!g.")
			t = strings.TrimSpace(t)
		}
		// the struct's fields by their types: the mutex is mu, the count is n, the condition variable is zero
		for old, canon := range fields {
			if old != canon {
				t = strings.ReplaceAll(t, "g."+old, "g.\x00"+canon)
			}
		}
		return strings.ReplaceAll(t, "\x00", "")
	}
	// a condition as the sorted list of its conjuncts (operands of && have no side effects here)
	var conj func(e ast.Expr) []string
	conj = func(e ast.Expr) []string {
		if p, ok := e.(*ast.ParenExpr); ok {
			return conj(p.X)
		}
		if b, ok := e.(*ast.BinaryExpr); ok && b.Op == token.LAND {
			return append(conj(b.X), conj(b.Y)...)
		}
		return []string{norm(e)}
	}
	cond := func(e ast.Expr) string {
		c := conj(e)
		sort.Strings(c)
		return strings.Join(c, " && ")
	}
	name := fd.Name.Name
	if len(fd.Body.List) > 0 {
		consts["wg_"+name+"_first"] = norm(fd.Body.List[0])
	}
	var stack []ast.Node
	ast.Inspect(fd.Body, func(n ast.Node) bool {
		if n == nil {
			stack = stack[:len(stack)-1]
			return true
		}
		stack = append(stack, n)
		call, ok := n.(*ast.CallExpr)
		if !ok {
			return true
		}
		sel, ok := call.Fun.(*ast.SelectorExpr)
		if !ok {
			return true
		}
		if sel.Sel.Name != "Wait" && sel.Sel.Name != "Broadcast" && sel.Sel.Name != "Signal" {
			return true
		}
		if x := norm(sel.X); !strings.HasSuffix(x, ".zero") {
			// a local holding the condition variable (cond := g.zero ...; cond.Wait()) counts as well; a method of the
			// group itself (g.Wait()) or of the mutex does not
			if _, isIdent := sel.X.(*ast.Ident); !isIdent || x == "g" {
				return true
			}
		}
		key := "wg_" + name + "_" + sel.Sel.Name
		consts[key] = "unguarded"
		for i := len(stack) - 2; i >= 0; i-- {
			switch x := stack[i].(type) {
			case *ast.ForStmt:
				if sel.Sel.Name == "Wait" {
					c := "true"
					if x.Cond != nil {
						c = cond(x.Cond)
					}
					consts[key] = "for " + c
					return true
				}
			case *ast.IfStmt:
				if sel.Sel.Name != "Wait" {
					consts[key] = "if " + cond(x.Cond)
					return true
				}
				if consts[key] == "unguarded" {
					consts[key] = "if " + cond(x.Cond) // a Wait under an if, not (yet) under a for
				}
			}
		}
		return true
	})
}

// wgFields maps the field names of struct barWaitGroup to canonical names by their types.
func wgFields(f *ast.File) map[string]string {
	out := map[string]string{}
	for _, d := range f.Decls {
		gd, ok := d.(*ast.GenDecl)
		if !ok {
			continue
		}
		for _, sp := range gd.Specs {
			ts, ok := sp.(*ast.TypeSpec)
			if !ok || ts.Name.Name != "barWaitGroup" {
				continue
			}
			st, ok := ts.Type.(*ast.StructType)
			if !ok {
				continue
			}
			for _, fl := range st.Fields.List {
				canon := ""
				switch text(fl.Type) {
				case "sync.Mutex":
					canon = "mu"
				case "int", "int64", "int32":
					canon = "n"
				case "*sync.Cond":
					canon = "zero"
				}
				for _, nm := range fl.Names {
					if canon != "" {
						out[nm.Name] = canon
					}
				}
			}
		}
	}
	return out
}

func isDoneKind(k string) bool { return k == "KDone" || k == "KCtxDone" || k == "KBsOk" }

func main() {
	repoF := flag.String("repo", "/repo", "library source tree")
	outF := flag.String("out", ".", "directory GenApi.v is written to")
	flag.Parse()
	repo, out := *repoF, filepath.Join(*outF, "GenApi.v")
	_ = os.MkdirAll(*outF, 0o755)
	files, _ := filepath.Glob(filepath.Join(repo, "*.go"))
	sort.Strings(files)
	var sels []sel
	var spawns []spawn
	var hmShapes [][2]string
	consts := map[string]string{}
	termHeightVar := map[string]string{}
	termWidthVar := map[string]string{}
	for _, path := range files {
		base := filepath.Base(path)
		if strings.HasSuffix(base, "_test.go") {
			continue
		}
		src, err := os.ReadFile(path)
		if err != nil {
			fmt.Fprintln(os.Stderr, err)
			os.Exit(2)
		}
		if bytes.Contains(src, []byte("//go:build verif")) {
			continue
		}
		f, err := parser.ParseFile(fset, path, src, 0)
		if err != nil {
			fmt.Fprintln(os.Stderr, err)
			os.Exit(2)
		}
		for _, d := range f.Decls {
			fd, ok := d.(*ast.FuncDecl)
			if !ok || fd.Body == nil {
				continue
			}
			recv, name := recvName(fd), fd.Name.Name
			if recv == "heapManager" && name != "run" {
				hmShapes = append(hmShapes, [2]string{name, hmShape(fd)})
			}
			if recv == "barWaitGroup" {
				wgShape(fd, consts, wgFields(f))
			}
			// first find out whether this function asks for the terminal size and what it calls the two results, wherever in its
			// body it does so (a refactor may put the non-terminal branch first)
			ast.Inspect(fd.Body, func(n ast.Node) bool {
				if x, ok := n.(*ast.AssignStmt); ok && len(x.Rhs) == 1 && len(x.Lhs) >= 2 {
					if call, ok := x.Rhs[0].(*ast.CallExpr); ok {
						if se, ok := call.Fun.(*ast.SelectorExpr); ok && se.Sel.Name == "GetTermSize" {
							termHeightVar[recv+"."+name] = text(x.Lhs[1])
							termWidthVar[recv+"."+name] = text(x.Lhs[0])
						}
					}
				}
				return true
			})
			depth := 0
			var walk func(n ast.Node) bool
			walk = func(n ast.Node) bool {
				switch x := n.(type) {
				case *ast.FuncLit:
					depth++
					ast.Inspect(x.Body, walk)
					depth--
					return false
				case *ast.GoStmt:
					what := text(x.Call.Fun)
					if _, ok := x.Call.Fun.(*ast.FuncLit); ok {
						what = "func"
					}
					spawns = append(spawns, spawn{base, recv + "." + name, what})
				case *ast.SelectStmt:
					s := sel{recv: recv, method: name, line: fset.Position(x.Pos()).Line, inClosure: depth > 0}
					for _, c := range x.Body.List {
						cc := c.(*ast.CommClause)
						k := clauseKind(cc)
						s.clauses = append(s.clauses, k)
						if isDoneKind(k) && s.doneRet == "" {
							for _, st := range cc.Body {
								if r, ok := st.(*ast.ReturnStmt); ok {
									s.doneRet = strings.TrimSpace(strings.TrimPrefix(text(r), "return"))
									if s.doneRet == "" {
										s.doneRet = "-"
									}
								}
							}
						}
					}
					sels = append(sels, s)
				case *ast.AssignStmt:
					// width, height, err = cw.GetTermSize(): remember what the height is called in this function
					if len(x.Rhs) == 1 && len(x.Lhs) >= 2 {
						if call, ok := x.Rhs[0].(*ast.CallExpr); ok {
							if se, ok := call.Fun.(*ast.SelectorExpr); ok && se.Sel.Name == "GetTermSize" {
								termHeightVar[recv+"."+name] = text(x.Lhs[1])
								termWidthVar[recv+"."+name] = text(x.Lhs[0])
								return true
							}
						}
					}
					// any other assignment to the height in that function: the stand-in for an output that is not a terminal
					if hv, ok := termHeightVar[recv+"."+name]; ok && len(x.Lhs) == len(x.Rhs) {
						for i, l := range x.Lhs {
							if text(l) == hv {
								if text(x.Rhs[i]) == termWidthVar[recv+"."+name] {
									consts["nontermHeight"] = "width"
								} else {
									consts["nontermHeight"] = text(x.Rhs[i])
								}
							}
						}
					}
				case *ast.IncDecStmt:
					// the function that asks the terminal for its size keeps one row fewer (wherever a refactor has put it)
					if hv, ok := termHeightVar[recv+"."+name]; ok && text(x.X) == hv && x.Tok == token.DEC {
						consts["heightAdjust"] = "-1"
					}
				case *ast.KeyValueExpr:
					if id, ok := x.Key.(*ast.Ident); ok && id.Name == "popPriority" {
						consts["popPriority"] = text(x.Value)
					}
				}
				return true
			}
			ast.Inspect(fd.Body, walk)
		}
		for _, d := range f.Decls {
			gd, ok := d.(*ast.GenDecl)
			if !ok {
				continue
			}
			for _, sp := range gd.Specs {
				if vs, ok := sp.(*ast.ValueSpec); ok {
					for i, n := range vs.Names {
						if n.Name == "defaultRefreshRate" && i < len(vs.Values) {
							consts["defaultRefreshRate"] = text(vs.Values[i])
						}
					}
				}
			}
		}
	}
	var b strings.Builder
	b.WriteString("(* GENERATED by /verif/translator from /repo's working tree — do not edit. *)\n")
	b.WriteString("From Coq Require Import String List ZArith.\nImport ListNotations.\nOpen Scope string_scope.\n\n")
	b.WriteString("Inductive ckind := KSendOp | KSendIO | KSendRender | KSendOther | KDone | KCtxDone | KBsOk\n  | KRecvOp | KRecvIO | KRecvRender | KRecvOther | KDefault | KOther.\n\n")
	b.WriteString("Record gsel := mkSel { g_recv : string; g_method : string; g_closure : bool; g_clauses : list ckind; g_done_ret : string }.\n\n")
	b.WriteString("Definition selects : list gsel := [\n")
	for i, s := range sels {
		sep := ";"
		if i == len(sels)-1 {
			sep = ""
		}
		fmt.Fprintf(&b, "  mkSel %q %q %v [%s] %q%s\n", s.recv, s.method, s.inClosure, strings.Join(s.clauses, "; "), s.doneRet, sep)
	}
	b.WriteString("].\n\n")
	b.WriteString("Definition spawns : list (string * string * string) := [\n")
	for i, s := range spawns {
		sep := ";"
		if i == len(spawns)-1 {
			sep = ""
		}
		fmt.Fprintf(&b, "  (%q, %q, %q)%s\n", s.file, s.fn, s.what, sep)
	}
	b.WriteString("].\n\n")
	b.WriteString("(* request methods of the heap manager: (name, shape) *)\nDefinition hm_methods : list (string * string) := [\n")
	for i, h := range hmShapes {
		sep := ";"
		if i == len(hmShapes)-1 {
			sep = ""
		}
		fmt.Fprintf(&b, "  (%q, %q)%s\n", h[0], h[1], sep)
	}
	b.WriteString("].\n\n")
	popInit := "0"
	switch consts["popPriority"] {
	case "math.MinInt32":
		popInit = "(-2147483648)"
	default:
		popInit = "0 (* unrecognised: " + strings.ReplaceAll(consts["popPriority"], "*)", "* )") + " *)"
	}
	fmt.Fprintf(&b, "Definition gen_pop_priority_init : Z := %s%%Z.\n", popInit)
	fmt.Fprintf(&b, "Definition gen_pop_priority_src : string := %q.\n", consts["popPriority"])
	adj := consts["heightAdjust"]
	if adj == "" {
		adj = "0"
	}
	fmt.Fprintf(&b, "(* rows kept on a terminal = reported height + this *)\nDefinition gen_terminal_height_adjust : Z := (%s)%%Z.\n", adj)
	fmt.Fprintf(&b, "(* height assumed for an output that is not a terminal *)\nDefinition gen_nonterminal_height : string := %q.\n", consts["nontermHeight"])
	fmt.Fprintf(&b, "Definition gen_default_refresh_rate : string := %q.\n", consts["defaultRefreshRate"])
	b.WriteString("(* bar_wait_group.go: first statement of Add and of Wait, guard of the Broadcast in Add, loop around cond.Wait in Wait *)\n")
	fmt.Fprintf(&b, "Definition gen_wait_group : list (string * string) := [(\"Add first\", %q); (\"Wait first\", %q); (\"Add Broadcast\", %q); (\"Wait Wait\", %q)].\n",
		consts["wg_Add_first"], consts["wg_Wait_first"], consts["wg_Add_Broadcast"], consts["wg_Wait_Wait"])
	if old, err := os.ReadFile(out); err == nil && string(old) == b.String() {
		return // unchanged: keep the timestamp so that nothing is rebuilt
	}
	if err := os.WriteFile(out, []byte(b.String()), 0o644); err != nil {
		fmt.Fprintln(os.Stderr, err)
		os.Exit(2)
	}
}
